#!/usr/bin/env python3
"""tools/seeded_results.py [--add-first <name> <try_seeded output file>]... [--add-after <name> <file>]...
Maintains seeded/results.json (what each registered check said about each seeded change, at the first run and after
strengthening) and regenerates seeded/RESULTS.md from it and the meta.json files."""
import sys, os, json, re
VERIF = os.path.dirname(os.path.dirname(os.path.abspath(__file__)))
RES = os.path.join(VERIF, "seeded", "results.json")
res = json.load(open(RES))


def parse(path):
    out = []
    for ln in open(path):
        m = re.match(r"^(C\d\d) exit (\d+) \| (.*)$", ln.strip())
        if not m:
            continue
        rest = m.group(3)
        what = rest.split("what:", 1)[1].strip() if "what:" in rest else (rest.split("no longer checks:", 1)[1].strip() if "no longer checks:" in rest else "")
        out.append({"check": m.group(1), "exit": int(m.group(2)), "no_failing_input_found": "no-failing-input-found" in rest,
                    "what": what[:200]})
    return out


args = sys.argv[1:]
i = 0
while i < len(args):
    if args[i] in ("--add-first", "--add-after"):
        key = "first_run" if args[i] == "--add-first" else "after_strengthening"
        rows = parse(args[i + 2])
        if rows:
            old = {r["check"]: r for r in res[key].get(args[i + 1], [])}
            for r in rows:
                old[r["check"]] = r
            res[key][args[i + 1]] = list(old.values())
        i += 3
    else:
        i += 1
json.dump(res, open(RES, "w"), indent=1, sort_keys=True)


def cell(rows):
    if not rows:
        return ""
    parts = []
    for r in rows:
        tag = "pass" if r["exit"] == 0 else ("infra" if r["exit"] == 2 else ("V/nf" if r.get("no_failing_input_found") else "V"))
        parts.append("%s:%s" % (r["check"], "**%s**" % tag if tag.startswith("V") else tag))
    return " ".join(parts)


names = sorted(d for d in os.listdir(os.path.join(VERIF, "seeded")) if os.path.isdir(os.path.join(VERIF, "seeded", d)))
lines = ["# Seeded breaking changes: what was run and what caught them", "",
         "Each directory `seeded/<name>/` holds `patch.diff`, `demo.py` (exits 0 on the unchanged tree, 1 on the changed one) and `meta.json` "
         "(the author's description, what the change needs to manifest, and the independent confirmation: demo on both trees, upstream suite green). "
         "Letters A/B: rounds 1-2, C/D: round 3 (C37, C43: first targeted in round 3).", "",
         "Legend: **V** = `VIOLATION` with a concrete failing input; **V/nf** = `VIOLATION … no-failing-input-found`; **pass** = the check exited 0; **infra** = exit 2.", "",
         "| change | what the author changed (from meta.json) | first run | after strengthening |", "|---|---|---|---|"]
caught1 = caught2 = 0
for n in names:
    try:
        meta = json.load(open(os.path.join(VERIF, "seeded", n, "meta.json")))
    except Exception:
        meta = {}
    what = str(meta.get("what", "")).replace("|", "/").replace("\n", " ")[:260]
    f, a = res["first_run"].get(n, []), res["after_strengthening"].get(n, [])
    c1 = any(r["exit"] == 1 and not r.get("no_failing_input_found") for r in f)
    c2 = c1 or any(r["exit"] == 1 and not r.get("no_failing_input_found") for r in a)
    caught1 += c1
    caught2 += c2
    lines.append("| %s | %s | %s | %s |" % (n, what, cell(f), cell(a) if a else ("(unchanged)" if c1 else "")))
lines += ["", "%d changes; %d caught with a concrete failing input at the first run, %d after strengthening." % (len(names), caught1, caught2)]
open(os.path.join(VERIF, "seeded", "RESULTS.md"), "w").write("\n".join(lines) + "\n")
print(lines[-1])
