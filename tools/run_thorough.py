#!/usr/bin/env python3
"""tools/run_seeds.py <seeds comma> <PID...> [-j N] : run quick checks for several seeds, N at a time; one summary line per run."""
import sys, os, subprocess, concurrent.futures as cf, time
VERIF = os.path.dirname(os.path.dirname(os.path.abspath(__file__)))
args = sys.argv[1:]
j = 4
if "-j" in args:
    i = args.index("-j"); j = int(args[i + 1]); del args[i:i + 2]
seeds = [int(s) for s in args[0].split(",")]
pids = args[1:]
GEN = {"C11", "C24"}     # regenerate Gen/*.lean: never two of the same at once
def run(pid, seed):
    t = time.time()
    p = subprocess.run([os.path.join(VERIF, "check"), pid, "--tier", "thorough"], cwd=VERIF, env=dict(os.environ, VERIF_SEED=str(seed)),
                       capture_output=True, text=True, timeout=4*3600)
    lines = [l for l in p.stdout.split("\n") if l.startswith(("VIOLATION", "INFRA", "  what", "  input"))]
    return pid, seed, p.returncode, round(time.time() - t), p.stdout.count("KNOWN-FINDING"), " | ".join(lines)[:700]
jobs = [(p, s) for s in seeds for p in pids if p not in GEN]
with cf.ThreadPoolExecutor(j) as ex:
    for r in ex.map(lambda a: run(*a), jobs):
        print("%s seed=%d exit=%d %ds known=%d %s" % r, flush=True)
for s in seeds:
    for p in pids:
        if p in GEN:
            print("%s seed=%d exit=%d %ds known=%d %s" % run(p, s), flush=True)
