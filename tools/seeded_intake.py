#!/usr/bin/env python3
"""tools/seeded_intake.py <dir with patch.diff demo.py meta.json> <name> [--no-suite]
Confirms a seeded breaking change independently and stores it as /verif/seeded/<name>/.
 1. fresh worktree of /repo (HEAD) under /tmp; demo.py must exit 0 there (unchanged tree)
 2. apply patch.diff; demo.py must exit non-zero; the full upstream suite must pass (337 passed)
 3. copy patch.diff, demo.py, meta.json (+ "confirmed" block) to seeded/<name>/
The worktree is removed afterwards."""
import sys, os, subprocess, json, shutil, tempfile, re
VERIF = os.path.dirname(os.path.dirname(os.path.abspath(__file__)))
src, name = sys.argv[1], sys.argv[2]
nosuite = "--no-suite" in sys.argv
tree = tempfile.mkdtemp(prefix="seedchk_", dir="/tmp"); os.rmdir(tree)
subprocess.check_call(["git", "-C", "/repo", "worktree", "add", "-q", "--detach", tree, "HEAD"])
env = dict(os.environ, PYTHONPATH=tree, MPMATH_NOGMPY="1")
conf = {}
try:
    demo = os.path.abspath(os.path.join(src, "demo.py"))
    p = subprocess.run(["/venv/bin/python", demo], cwd=tree, env=env, capture_output=True, text=True, timeout=1800)
    conf["demo_unchanged_exit"] = p.returncode
    conf["demo_unchanged_tail"] = p.stdout.strip().split("\n")[-1][:200]
    subprocess.check_call(["git", "-C", tree, "apply", os.path.abspath(os.path.join(src, "patch.diff"))])
    p = subprocess.run(["/venv/bin/python", demo], cwd=tree, env=env, capture_output=True, text=True, timeout=1800)
    conf["demo_mutated_exit"] = p.returncode
    conf["demo_mutated_tail"] = "\n".join(p.stdout.strip().split("\n")[-3:])[:600]
    if not nosuite:
        p = subprocess.run(["/venv/bin/python", "-m", "pytest", "-q", "-p", "no:cacheprovider", "--timeout=900", "mpmath/tests"],
                           cwd=tree, env=env, capture_output=True, text=True, timeout=3600)
        conf["suite_exit"] = p.returncode
        conf["suite_tail"] = p.stdout.strip().split("\n")[-1][:200]
    conf["repo_head"] = subprocess.run(["git", "-C", "/repo", "rev-parse", "--short", "HEAD"], capture_output=True, text=True).stdout.strip()
finally:
    subprocess.call(["git", "-C", "/repo", "worktree", "remove", "--force", tree])
ok = conf.get("demo_unchanged_exit") == 0 and conf.get("demo_mutated_exit") not in (0, None) and (nosuite or conf.get("suite_exit") == 0)
print(json.dumps(conf, indent=1))
if not ok:
    print("NOT CONFIRMED"); sys.exit(1)
dst = os.path.join(VERIF, "seeded", name)
os.makedirs(dst, exist_ok=True)
for f in ("patch.diff", "demo.py"):
    shutil.copy(os.path.join(src, f), os.path.join(dst, f))
meta = json.load(open(os.path.join(src, "meta.json")))
meta["confirmed"] = conf
json.dump(meta, open(os.path.join(dst, "meta.json"), "w"), indent=1)
print("CONFIRMED ->", dst)
