#!/usr/bin/env python3
"""
tools/skel_extract.py — translator  Python `ast`  →  precision-effect skeletons (Lean data).

Tie T3 of DESIGN.md §2.2 for property C11.  Run on every check:

    python tools/skel_extract.py [--repo /repo/mpmath] [--out lean/Gen]

It parses every .py file under the package (tests excluded), abstracts *every* function to a term
of the IR of `lean/MpModel/Skel.lean`, computes interprocedural summaries (`neutral | leaky`,
greatest fixed point over name-resolved calls, ambiguous names ⇒ worst), and writes

    <out>/PrecSkel.lean   one `def skel_… : Mp.Skel.Stmt` per function that has a precision
                          effect (own write, `with` manager, or call of a leaky callee);
                          `example : bracketed skel_… = true  := by decide` when the check passes,
                          `example : bracketed skel_… = false := by decide` otherwise
                          (so Lean re-decides what this script decided), and
                          `def notBracketed : List String`.
    <out>/prec_skel.json  sidecar: per function {file, line, kind, bracketed, summary, reasons,
                          entry points that reach it, leaky public entry points}.

Abstraction rules (each one only ADDS behaviours w.r.t. the Python code, see Skel.lean):
  * `v = X.prec` / `v = X._prec` → save v prec;  `v = X.dps` / `X._dps` → save v dps
    (v a local name or a dotted attribute such as `self.dps_orig`); any other store to v → assign v.
    Attribute variables, and names declared nonlocal/global, are additionally killed by every call.
  * `X.prec = v`, `X.prec op= e`, `X.prec = e`, same for dps/_prec/_dps/_prec_rounding[…] →
    setPrec/setDps (.saved v | .other), preceded by `call` when e can raise.
  * every statement whose expressions can raise (anything beyond names/constants) → `call`;
    if one of the calls in it resolves to a leaky function, or is handed a reference to a leaky
    function / a lambda calling one → `callLeaky`.
  * if/while/for/try/with/return/raise/break/continue/yield → ite/loop/tryExcept/tryFinally/
    withMgr (for workprec/workdps/extraprec/extradps)/ret/raise/brk/cont/yld.
  * behaviour-preserving simplification: a sub-term without save/assign/set/yield/ret/raise/brk/
    cont/with that contains a call is replaced by `call` (same outcomes {normal, raised}, same state).
"""
import ast, os, sys, json, argparse, collections, re

PREC_ATTRS = {'prec': 'prec', '_prec': 'prec', 'dps': 'dps', '_dps': 'dps'}
MANAGERS = {'workprec': 'prec', 'extraprec': 'prec', 'workdps': 'dps', 'extradps': 'dps'}
# the primitive setters themselves (their purpose is to change the precision)
SETTER_NAMES = {'_set_prec', '_set_dps', 'default'}

# ----------------------------------------------------------------------------------------------
# IR (tuples) and the Python mirror of the Lean definitions kills / hasYield / after / okG
# ----------------------------------------------------------------------------------------------
SKIP = ('skip',); CALL = ('call',); LEAKY = ('callLeaky',); YLD = ('yld',)
RET = ('ret',); RAISE = ('raise',); BRK = ('brk',); CONT = ('cont',)

def seq(*xs):
    xs = [x for x in xs if x != SKIP]
    if not xs: return SKIP
    r = xs[-1]
    for x in reversed(xs[:-1]):
        # merge adjacent plain calls
        if x == CALL and (r == CALL or (r[0] == 'seq' and r[1] == CALL)):
            continue
        r = ('seq', x, r)
    return r

def kills(s):
    t = s[0]
    if t in ('save', 'assign'): return [s[1]]
    if t in ('seq', 'ite', 'tryFinally', 'tryExcept'): return kills(s[1]) + kills(s[2])
    if t == 'loop': return kills(s[1])
    if t == 'withMgr': return [s[1]] + kills(s[3])
    return []

def has_yield(s):
    t = s[0]
    if t == 'yld': return True
    if t in ('seq', 'ite', 'tryFinally', 'tryExcept'): return has_yield(s[1]) or has_yield(s[2])
    if t == 'loop': return has_yield(s[1])
    if t == 'withMgr': return has_yield(s[3])
    return False

def diff(S, K): return [v for v in S if v not in K]
def inter(S, T): return [v for v in S if v in T]

def after(S, s):
    t = s[0]
    if t == 'save': return [s[1]] + S if s[2] == 'prec' else diff(S, [s[1]])
    if t == 'assign': return diff(S, [s[1]])
    if t == 'seq': return after(after(S, s[1]), s[2])
    if t == 'ite': return inter(after(S, s[1]), after(S, s[2]))
    if t == 'loop': return diff(S, kills(s[1]))
    if t == 'tryFinally': return after(diff(S, kills(s[1])), s[2])
    if t == 'tryExcept': return inter(after(S, s[1]), after(diff(S, kills(s[1])), s[2]))
    if t == 'withMgr': return diff(S, [s[1]] + kills(s[3]))
    return S

def okG(dirty, S, s):
    t = s[0]
    if not dirty:
        if t in ('setPrec', 'setDps', 'callLeaky'): return False
        if t == 'seq': return okG(False, S, s[1]) and okG(False, after(S, s[1]), s[2])
        if t == 'ite': return okG(False, S, s[1]) and okG(False, S, s[2])
        if t == 'loop': return okG(False, diff(S, kills(s[1])), s[1])
        if t == 'tryFinally':
            S1 = diff(S, kills(s[1]))
            return (okG(False, S, s[1]) and okG(False, S1, s[2])) or \
                   (not has_yield(s[1]) and okG(True, S1, s[2]))
        if t == 'tryExcept': return okG(False, S, s[1]) and okG(False, diff(S, kills(s[1])), s[2])
        if t == 'withMgr': return s[1] not in kills(s[3]) and not has_yield(s[3])
        return True
    else:
        if t == 'setPrec': return s[1] is not None and s[1] in S
        if t == 'seq': return okG(True, S, s[1]) and okG(False, after(S, s[1]), s[2])
        return False

def bracketed(s): return okG(False, [], s)

EFFECT = ('setPrec', 'setDps', 'withMgr', 'callLeaky')
def children(s):
    t = s[0]
    if t in ('seq', 'ite', 'tryFinally', 'tryExcept'): return (s[1], s[2])
    if t == 'loop': return (s[1],)
    if t == 'withMgr': return (s[3],)
    return ()

def has_node(s, kinds):
    if s[0] in kinds: return True
    return any(has_node(x, kinds) for x in children(s))

NONPURE = ('save', 'assign', 'setPrec', 'setDps', 'callLeaky', 'yld', 'ret', 'raise', 'brk', 'cont',
           'withMgr', 'callNamed')
def simplify(s):
    """behaviour-preserving collapse of effect-free, exit-free sub-terms to `call` / `skip`"""
    t = s[0]
    if t in ('seq', 'ite', 'tryFinally', 'tryExcept'):
        a, b = simplify(s[1]), simplify(s[2])
        s = seq(a, b) if t == 'seq' else (t, a, b)
    elif t == 'loop':
        s = ('loop', simplify(s[1]))
    elif t == 'withMgr':
        return ('withMgr', s[1], s[2], simplify(s[3]))
    else:
        return s
    if not has_node(s, NONPURE):
        return CALL if has_node(s, ('call',)) else SKIP
    return s

def to_lean(s, ind=2):
    t = s[0]; p = ' ' * ind
    if t in ('skip', 'call', 'callLeaky', 'yld', 'ret', 'raise', 'brk', 'cont'): return '.' + t
    if t == 'save': return '(.save %d .%s)' % (s[1], s[2])
    if t == 'assign': return '(.assign %d)' % s[1]
    if t in ('setPrec', 'setDps'):
        return '(.%s %s)' % (t, '.other' if s[1] is None else '(.saved %d)' % s[1])
    if t == 'loop': return '(.loop %s)' % to_lean(s[1], ind)
    if t == 'withMgr': return '(.withMgr %d .%s\n%s%s)' % (s[1], s[2], p, to_lean(s[3], ind + 2))
    if t == 'seq':
        # flatten right-nested seqs onto separate lines
        parts = []
        while s[0] == 'seq':
            parts.append(s[1]); s = s[2]
        parts.append(s)
        out = to_lean(parts[-1], ind + 2)
        for x in reversed(parts[:-1]):
            out = '(.seq %s\n%s%s)' % (to_lean(x, ind + 2), p, out)
        return out
    return '(.%s %s\n%s%s)' % (t, to_lean(s[1], ind + 2), p, to_lean(s[2], ind + 2))

# ----------------------------------------------------------------------------------------------
# collecting functions
# ----------------------------------------------------------------------------------------------
class Func:
    def __init__(self, module, qual, node, cls, parent, file):
        self.module, self.qual, self.node, self.cls, self.parent, self.file = module, qual, node, cls, parent, file
        self.name = node.name
        self.key = module + ':' + qual
        self.nested = {}          # name -> [Func] defined directly inside
        self.decorators = [ast.unparse(d) for d in node.decorator_list]
        self.wrapped = any(d == 'defun_wrapped' for d in self.decorators)
        self.ir = None            # IR with callNamed nodes
        self.err = None

def collect(repo):
    funcs, modules = [], {}
    for dp, dn, fn in sorted(os.walk(repo)):
        dn.sort()
        if os.sep + 'tests' in dp + os.sep or dp.endswith('tests'): continue
        for f in sorted(fn):
            if not f.endswith('.py'): continue
            path = os.path.join(dp, f)
            rel = os.path.relpath(path, repo)
            mod = rel[:-3].replace(os.sep, '.')
            tree = ast.parse(open(path, encoding='utf-8').read(), path)
            modules[mod] = dict(tree=tree, top={}, classes={}, imports=set(), file=rel)
            def visit(body, qual, cls, parent):
                for n in body:
                    if isinstance(n, (ast.FunctionDef, ast.AsyncFunctionDef)):
                        q = (qual + '.' if qual else '') + n.name
                        fo = Func(mod, q, n, cls, parent, rel)
                        funcs.append(fo)
                        if parent is not None: parent.nested.setdefault(n.name, []).append(fo)
                        elif cls is None: modules[mod]['top'].setdefault(n.name, []).append(fo)
                        else: modules[mod]['classes'].setdefault(cls, {}).setdefault(n.name, []).append(fo)
                        visit_inner(n, q, cls, fo)
                    elif isinstance(n, ast.ClassDef):
                        q = (qual + '.' if qual else '') + n.name
                        modules[mod]['classes'].setdefault(n.name, {})
                        visit(n.body, q, n.name, parent)
                    elif isinstance(n, (ast.If, ast.Try, ast.With, ast.For, ast.While)):
                        for fld in ('body', 'orelse', 'finalbody'):
                            visit(getattr(n, fld, []) or [], qual, cls, parent)
                        for h in getattr(n, 'handlers', []): visit(h.body, qual, cls, parent)
                    elif isinstance(n, (ast.Import, ast.ImportFrom)) and parent is None:
                        for a in n.names: modules[mod]['imports'].add(a.asname or a.name)
            def visit_inner(fn_node, qual, cls, fo):
                # nested defs anywhere inside the function body (not inside nested defs)
                def walk(body):
                    for n in body:
                        if isinstance(n, (ast.FunctionDef, ast.AsyncFunctionDef, ast.ClassDef)):
                            visit([n], qual, None if isinstance(n, ast.ClassDef) else cls, fo)
                        else:
                            for fld in ('body', 'orelse', 'finalbody'):
                                sub = getattr(n, fld, None)
                                if isinstance(sub, list): walk(sub)
                            for h in getattr(n, 'handlers', []): walk(h.body)
                walk(fn_node.body)
            visit(tree.body, '', None, None)
    # disambiguate duplicate keys (same nested name twice in one function)
    # (ordinal in source order, so that keys survive line shifts: `airyai.h#1`, `airyai.h#2`, …)
    seen = collections.Counter(f.key for f in funcs)
    ordinal = collections.Counter()
    for f in sorted(funcs, key=lambda f: (f.file, f.node.lineno, f.node.col_offset)):
        if seen[f.key] > 1:
            ordinal[f.key] += 1
            f.key = '%s#%d' % (f.key, ordinal[f.key])
    return funcs, modules

# ----------------------------------------------------------------------------------------------
# translation of one function
# ----------------------------------------------------------------------------------------------
def dotted(e):
    """Name or dotted attribute chain as a string, else None"""
    if isinstance(e, ast.Name): return e.id
    if isinstance(e, ast.Attribute):
        b = dotted(e.value)
        return None if b is None else b + '.' + e.attr
    return None

def prec_field(e):
    """e is `X.prec` / `X.dps` / `X._prec` / `X._dps`  →  'prec' | 'dps'"""
    if isinstance(e, ast.Attribute) and e.attr in PREC_ATTRS: return PREC_ATTRS[e.attr]
    return None

def obj_of(e):
    """the object expression X of `X.prec` (dotted form, else the ast dump)"""
    return dotted(e.value) or ast.dump(e.value)

def is_prec_rounding_store(e):
    """a store into `X._prec_rounding[...]` that can change the PRECISION: every subscript except the constant index 1
    (`_prec_rounding = [prec, rounding]`: element 1 is the rounding mode, which C11 does not speak about)"""
    if not (isinstance(e, ast.Subscript) and isinstance(e.value, ast.Attribute) and e.value.attr == '_prec_rounding'):
        return False
    sl = e.slice
    if isinstance(sl, ast.Constant) and sl.value == 1:
        return False
    return True

class Translator:
    def __init__(self, fo):
        self.fo = fo
        self.vars = {}          # tracked variable name -> id
        self.volatile = set()   # tracked variables that any call may overwrite
        self.mgr = 0
        self.aliases = {}       # local name -> attribute name (name = X.attr)
        self.saved_obj = {}     # tracked variable name -> {object expressions X of its saves `v = X.prec`}
        self.lambdas = {}       # local name -> [Lambda nodes]  (name = lambda …)
        a = fo.node.args
        self.params = {x.arg for x in a.posonlyargs + a.args + a.kwonlyargs} | \
            ({a.vararg.arg} if a.vararg else set()) | ({a.kwarg.arg} if a.kwarg else set())
        self.nonlocal_names = set()
        self.prepass()

    def var(self, name):
        if name not in self.vars:
            self.vars[name] = len(self.vars)
            if '.' in name or name in self.nonlocal_names: self.volatile.add(name)
        return self.vars[name]

    def own_nodes(self, node):
        """walk without descending into nested function/class definitions and lambdas"""
        stack = list(ast.iter_child_nodes(node))
        while stack:
            n = stack.pop()
            yield n
            if isinstance(n, (ast.FunctionDef, ast.AsyncFunctionDef, ast.ClassDef, ast.Lambda)): continue
            stack.extend(ast.iter_child_nodes(n))

    def prepass(self):
        fn = self.fo.node
        for n in self.own_nodes(fn):
            if isinstance(n, (ast.Nonlocal, ast.Global)): self.nonlocal_names.update(n.names)
        # names of this function that nested functions rebind via nonlocal
        for n in ast.walk(fn):
            if isinstance(n, ast.Nonlocal): self.nonlocal_names.update(n.names)
        for n in self.own_nodes(fn):
            if isinstance(n, ast.Assign):
                if prec_field(n.value):
                    for t in n.targets:
                        d = dotted(t)
                        if d and not prec_field(t):
                            self.var(d)
                            self.saved_obj.setdefault(d, set()).add(obj_of(n.value))
                elif isinstance(n.value, ast.Attribute) and len(n.targets) == 1 \
                        and isinstance(n.targets[0], ast.Name):
                    self.aliases.setdefault(n.targets[0].id, set()).add(n.value.attr)
                elif isinstance(n.value, ast.Lambda) and len(n.targets) == 1 \
                        and isinstance(n.targets[0], ast.Name):
                    self.lambdas.setdefault(n.targets[0].id, []).append(n.value)
            # restores from a variable that is never saved here (e.g. parameter / attribute)
            if isinstance(n, ast.Assign) and any(prec_field(t) for t in n.targets):
                d = dotted(n.value)
                if d and not prec_field(n.value): self.var(d)

    # ---- expressions ----
    def expr_calls(self, e):
        """(may_raise, [call descriptors], has_yield) of an expression.  A call descriptor is
        ('call', how, name, refs): how = 'name' | 'attr' | 'unknown'; refs = function references
        handed to that call as direct arguments: ('name', n) | ('attr', n) | ('lam', calls-in-body).
        Lambda bodies are not evaluated here (they run in whoever calls them)."""
        if e is None: return False, [], False
        may, calls, yl = False, [], False
        stack = [e]
        while stack:
            n = stack.pop()
            if isinstance(n, (ast.Constant, ast.Name)): continue
            if isinstance(n, ast.Lambda): continue
            if isinstance(n, (ast.Yield, ast.YieldFrom)): yl = True
            if isinstance(n, ast.Call):
                may = True
                refs = []
                for a in list(n.args) + [k.value for k in n.keywords]:
                    if isinstance(a, ast.Starred): a = a.value
                    if isinstance(a, ast.Name): refs.append(('name', a.id))
                    elif isinstance(a, ast.Attribute): refs.append(('attr', a.attr))
                    elif isinstance(a, ast.Lambda):
                        refs.append(('lam', self.lambda_calls(a)))
                refs = tuple(sorted(set(refs), key=repr))
                f = n.func
                if isinstance(f, ast.Name): calls.append(('call', 'name', f.id, refs))
                elif isinstance(f, ast.Attribute): calls.append(('call', 'attr', f.attr, refs))
                else: calls.append(('call', 'unknown', None, refs))
            elif not isinstance(n, (ast.expr_context, ast.Attribute, ast.Tuple, ast.List, ast.Load,
                                    ast.Store, ast.keyword, ast.Starred, ast.operator, ast.unaryop,
                                    ast.cmpop, ast.boolop, ast.FormattedValue, ast.JoinedStr)):
                may = True    # BinOp, UnaryOp, Compare, Subscript, comprehensions, IfExp, …
            stack.extend(ast.iter_child_nodes(n))
        return may, calls, yl

    def lambda_calls(self, lam):
        """descriptors of the calls a lambda body makes when it is eventually called"""
        _, cs, _ = self.expr_calls(lam.body)
        inner = []
        for n in ast.walk(lam.body):
            if isinstance(n, ast.Lambda): inner += list(self.lambda_calls(n))
        return tuple(sorted(set(cs + inner), key=repr))

    def ev(self, *exprs):
        """IR for evaluating expressions: skip | call | callNamed(...) [; yld]"""
        may, calls, yl = False, [], False
        for e in exprs:
            m, c, y = self.expr_calls(e)
            may |= m; calls += c; yl |= y
        out = SKIP
        if may or yl:
            out = ('callNamed', tuple(sorted(set(calls), key=repr))) if calls else CALL
            out = seq(out, self.clobber())
        if yl:
            # the consumer observes the state; resuming may raise GeneratorExit / thrown exception
            out = seq(out, YLD, CALL)
        return out

    def clobber(self):
        return seq(*[('assign', self.vars[v]) for v in sorted(self.volatile) if v in self.vars])

    def store(self, target):
        """IR for binding `target` (kills tracked variables)"""
        out = []
        for n in ast.walk(target):
            d = dotted(n) if isinstance(n, (ast.Name, ast.Attribute)) else None
            if d in self.vars and isinstance(getattr(n, 'ctx', None), (ast.Store, ast.Del)):
                out.append(('assign', self.vars[d]))
            if isinstance(n, (ast.Attribute, ast.Subscript)) and isinstance(n.ctx, ast.Store):
                f = prec_field(n) if isinstance(n, ast.Attribute) else None
                if f: out.append(('setPrec' if f == 'prec' else 'setDps', None))
                elif is_prec_rounding_store(n): out.append(('setPrec', None))
        return seq(*out)

    # ---- statements ----
    def block(self, body):
        return seq(*[self.stmt(s) for s in body])

    def stmt(self, s):
        if isinstance(s, ast.Assign):
            f = prec_field(s.value)
            if f and isinstance(s.value.ctx, ast.Load):
                # v = X.prec  (possibly several targets)
                out = []
                for t in s.targets:
                    d = dotted(t)
                    ft = prec_field(t)
                    if ft:     # ctx.dps = other.prec  — a write from an untracked source
                        out.append(('setPrec' if ft == 'prec' else 'setDps', None))
                    elif d in self.vars: out.append(('save', self.vars[d], f))
                    else: out.append(self.store(t))
                return seq(*out)
            out = [self.ev(s.value)]
            for t in s.targets:
                ft = prec_field(t)
                if ft:
                    d = dotted(s.value)
                    src = self.vars[d] if d in self.vars else None
                    # `Y.prec = v` restores the save `v = X.prec` only if X and Y are the same object expression:
                    # the precision of ANOTHER context object (ctx._mp against ctx) is a write from an untracked source
                    if src is not None and self.saved_obj.get(d) and self.saved_obj[d] != {obj_of(t)}:
                        src = None
                    out.append(('setPrec' if ft == 'prec' else 'setDps', src))
                else:
                    if not isinstance(t, ast.Name): out.append(self.ev(t))
                    out.append(self.store(t))
            return seq(*out)
        if isinstance(s, ast.AugAssign):
            ft = prec_field(s.target)
            if ft: return seq(self.ev(s.value), ('setPrec' if ft == 'prec' else 'setDps', None))
            return seq(self.ev(s.value), CALL, self.store(s.target))
        if isinstance(s, ast.AnnAssign):
            return seq(self.ev(s.value), self.store(s.target)) if s.value else SKIP
        if isinstance(s, ast.Expr):
            if isinstance(s.value, ast.Constant): return SKIP
            return self.ev(s.value)
        if isinstance(s, ast.Return):
            return seq(self.ev(s.value), RET)
        if isinstance(s, ast.Raise):
            return seq(self.ev(s.exc, s.cause), RAISE)
        if isinstance(s, ast.Assert):
            return seq(self.ev(s.test, s.msg), CALL)
        if isinstance(s, (ast.Pass, ast.Global, ast.Nonlocal, ast.Import, ast.ImportFrom)):
            return SKIP if isinstance(s, (ast.Pass, ast.Global, ast.Nonlocal)) else CALL
        if isinstance(s, ast.Delete):
            return seq(CALL, *[self.store(t) for t in s.targets])
        if isinstance(s, ast.Break): return BRK
        if isinstance(s, ast.Continue): return CONT
        if isinstance(s, ast.If):
            return seq(self.ev(s.test), ('ite', self.block(s.body), self.block(s.orelse)))
        if isinstance(s, ast.While):
            body = seq(self.ev(s.test), self.block(s.body))
            out = [('loop', seq(body, self.ev(s.test)))]
            if s.orelse: out.append(('ite', self.block(s.orelse), SKIP))
            return seq(self.ev(s.test), *out)
        if isinstance(s, (ast.For, ast.AsyncFor)):
            body = seq(CALL, self.store(s.target), self.block(s.body))
            out = [self.ev(s.iter), CALL, ('loop', body)]
            if s.orelse: out.append(('ite', self.block(s.orelse), SKIP))
            return seq(*out)
        if isinstance(s, ast.Try) or (hasattr(ast, 'TryStar') and isinstance(s, ast.TryStar)):
            inner = self.block(s.body)
            if s.handlers:
                hs = SKIP
                first = True
                for h in reversed(s.handlers):
                    hb = seq(self.ev(h.type),
                             ('assign', self.vars[h.name]) if h.name in self.vars else SKIP,
                             self.block(h.body))
                    hs = hb if first else ('ite', hb, hs)
                    first = False
                inner = ('tryExcept', inner, hs)
            if s.orelse:
                inner = seq(inner, ('ite', self.block(s.orelse), SKIP))
            if s.finalbody:
                inner = ('tryFinally', inner, self.block(s.finalbody))
            return inner
        if isinstance(s, (ast.With, ast.AsyncWith)):
            body = self.block(s.body)
            for it in reversed(s.items):
                ce = it.context_expr
                kind = None
                if isinstance(ce, ast.Call) and isinstance(ce.func, ast.Attribute) and ce.func.attr in MANAGERS:
                    kind = MANAGERS[ce.func.attr]
                    pre = self.ev(*ce.args, *[k.value for k in ce.keywords])
                    self.mgr += 1
                    m = 1000 + self.mgr               # fresh PrecisionManager object
                    bind = self.store(it.optional_vars) if it.optional_vars is not None else SKIP
                    body = seq(pre, ('withMgr', m, kind, seq(bind, body)))
                else:
                    d = dotted(ce)
                    bind = self.store(it.optional_vars) if it.optional_vars is not None else SKIP
                    if d is not None:
                        # a pre-made object: if it is a PrecisionManager, entering it twice is D8;
                        # we cannot know its kind — name the object, treat as an unknown manager
                        raise NotImplementedError('with <object %s>' % d)
                    body = seq(self.ev(ce), bind, ('tryFinally', ('tryExcept', body, CALL), CALL))
            return body
        if isinstance(s, (ast.FunctionDef, ast.AsyncFunctionDef, ast.ClassDef)):
            out = [self.ev(*s.decorator_list)] if s.decorator_list else []
            if s.name in self.vars: out.append(('assign', self.vars[s.name]))
            if isinstance(s, ast.ClassDef): out.append(CALL)
            return seq(*out)
        raise NotImplementedError(type(s).__name__)

    def translate(self):
        return self.block(self.fo.node.body)

# ----------------------------------------------------------------------------------------------
# name resolution, summaries
# ----------------------------------------------------------------------------------------------
class Program:
    def __init__(self, repo):
        self.repo = repo
        self.funcs, self.modules = collect(repo)
        self.by_key = {f.key: f for f in self.funcs}
        # attribute-call universe: methods and top-level functions, by simple name
        self.attr_index = collections.defaultdict(list)
        self.class_init = collections.defaultdict(list)
        for f in self.funcs:
            if f.parent is None:
                self.attr_index[f.name].append(f)
                if f.cls is not None and f.name == '__init__': self.class_init[f.cls].append(f)
        for f in self.funcs:
            try:
                tr = Translator(f)
                f.tr = tr
                f.ir = simplify(tr.translate())
            except NotImplementedError as e:
                f.err = 'untranslatable: %s' % e
                f.ir = seq(('setPrec', None), RET)     # forces "not bracketed"
        self.manager_model_ok = self.check_manager_model()
        if not self.manager_model_ok:
            for f in self.funcs:
                if has_node(f.ir, ('withMgr',)):
                    f.err = 'PrecisionManager no longer has the modelled shape'
                    f.ir = seq(('setPrec', None), RET)

    def check_manager_model(self):
        """the IR gives `with <PrecisionManager>` a fixed meaning (Skel.lean, `withMgr`); it is
        only used if the class in the tree still has that shape:
          __enter__: self.origp = ctx.prec; (ctx.prec = … | ctx.dps = …)
          __exit__ : ctx.prec = self.origp; return False"""
        def strip(s):
            t = s[0]
            if t in ('call', 'callNamed', 'assign'): return SKIP
            if t == 'seq': return seq(strip(s[1]), strip(s[2]))
            if t in ('ite', 'tryFinally', 'tryExcept'): return (t, strip(s[1]), strip(s[2]))
            if t == 'loop': return ('loop', strip(s[1]))
            return s
        en = [f for f in self.funcs if f.qual == 'PrecisionManager.__enter__' and f.module == 'ctx_mp']
        ex = [f for f in self.funcs if f.qual == 'PrecisionManager.__exit__' and f.module == 'ctx_mp']
        if len(en) != 1 or len(ex) != 1: return False
        e1 = strip(en[0].ir)
        ok1 = e1 == ('seq', ('save', 0, 'prec'), ('ite', ('setPrec', None), ('setDps', None)))
        ok2 = strip(ex[0].ir) == ('seq', ('setPrec', 0), RET)
        rets = [n for n in ast.walk(ex[0].node) if isinstance(n, ast.Return)]
        ok3 = all(isinstance(r.value, ast.Constant) and not r.value.value for r in rets if r.value is not None)
        same_var = set(en[0].tr.vars) == set(ex[0].tr.vars) == {'self.origp'}
        mk = {n: [f for f in self.funcs if f.module == 'ctx_mp' and f.qual == 'MPContext.' + n]
              for n in MANAGERS}
        def builds(f, kind):
            # def workprec(ctx, n, …): return PrecisionManager(ctx, <precfun>, None, …)  (dps: None, <dpsfun>)
            r = [n for n in ast.walk(f.node) if isinstance(n, ast.Return)]
            if len(r) != 1 or not isinstance(r[0].value, ast.Call): return False
            c = r[0].value
            if not (isinstance(c.func, ast.Name) and c.func.id == 'PrecisionManager' and len(c.args) >= 3): return False
            isnone = lambda a: isinstance(a, ast.Constant) and a.value is None
            return (not isnone(c.args[1]) and isnone(c.args[2])) if kind == 'prec' else \
                   (isnone(c.args[1]) and not isnone(c.args[2]))
        ok4 = all(len(v) == 1 and builds(v[0], MANAGERS[n]) for n, v in mk.items())
        return ok1 and ok2 and ok3 and same_var and ok4

    def resolve_name(self, f, name):
        """(functions, lambdas) a bare name may denote inside function f (lexical); both empty if
        unknown (e.g. a parameter holding a user callback: assumed precision-neutral)"""
        g = f
        while g is not None:
            if name in g.nested: return g.nested[name], []
            if name in g.tr.lambdas: return [], [(g, l) for l in g.tr.lambdas[name]]
            if name in g.tr.params: return [], []
            g = g.parent
        out = []
        if name in f.tr.aliases:
            for a in f.tr.aliases[name]: out += self.attr_index.get(a, [])
        m = self.modules[f.module]
        if name in m['top']: return out + m['top'][name], []
        if name in m['classes']: return out + self.class_init.get(name, []), []
        if name in m['imports']:
            out += [h for h in self.attr_index.get(name, []) if h.cls is None]
            out += self.class_init.get(name, [])
        return out, []

    def targets(self, f, how, name):
        """functions a call/reference may denote"""
        if how == 'name': return self.resolve_name(f, name)[0]
        if how == 'attr':
            if name in PREC_ATTRS: return []
            return self.attr_index.get(name, [])
        return []

    def is_outer_param(self, f, name):
        g = f
        while g is not None:
            if name in g.nested or name in g.tr.lambdas: return False
            if name in g.tr.params: return True
            g = g.parent
        return False

    def wrappers(self):
        """the `f_wrapped` closures of `_wrap_specfun` (what `ctx.name` is for a defun_wrapped name)"""
        return [h for h in self.funcs if h.name == 'f_wrapped' and h.parent is not None
                and h.parent.name == '_wrap_specfun' and h.module == 'ctx_mp_python']

    def wrapper_ok(self):
        ws = self.wrappers()
        return bool(ws) and all(h.key not in self.notcb and h.key not in self.leaky for h in ws)

    def fn_leaky(self, f, how, name, variant):
        """may calling the function denoted by (how, name) inside f leave a changed precision?
        variant = True: function-valued parameters (own or of an enclosing function) count as leaky,
        and closures defined here are judged by their own variant."""
        if how == 'name':
            if variant and self.is_outer_param(f, name): return True
            fs, lams = self.resolve_name(f, name)
            if any(h.key in self.leaky for h in fs): return True
            if variant and any(h.parent is not None and h.key in self.notcb for h in fs): return True
            for g, lam in lams:
                if any(self.desc_leaky(g, d, variant) for d in g.tr.lambda_calls(lam)): return True
            return False
        if how == 'attr':
            # `ctx.name(...)` of a defun_wrapped function goes through _wrap_specfun's try/finally,
            # provided that wrapper's own skeleton (with the wrapped function leaky) is bracketed
            ok = self.wrapper_ok()
            for h in self.targets(f, how, name):
                if h.key in self.leaky:
                    if h.wrapped and ok:
                        for w in self.wrappers(): self.cb_used.add(w.key)
                        continue
                    return True
            return False
        return False

    def cbsafe(self, h):
        """h calls / hands on its function-valued parameters only inside a bracket: decided by the
        same check on the variant skeleton in which every use of a parameter as a function is
        `callLeaky` (greatest fixed point, computed together with `leaky`)"""
        return h.key not in self.notcb

    def desc_leaky(self, f, d, variant):
        _, how, name, refs = d
        if self.fn_leaky(f, how, name, variant): return True
        bad = False
        for r in refs:
            if r[0] == 'lam': bad |= any(self.desc_leaky(f, c, variant) for c in r[1])
            else: bad |= self.fn_leaky(f, r[0], r[1], variant)
        if not bad: return False
        # a leaky function is handed to this call: fine only if every possible callee keeps its
        # callbacks inside a bracket
        ts = self.targets(f, how, name)
        if ts and all(self.cbsafe(h) for h in ts):
            for h in ts: self.cb_used.add(h.key)
            return False
        return True

    def resolve_ir(self, f, s, variant=False):
        t = s[0]
        if t == 'callNamed':
            return LEAKY if any(self.desc_leaky(f, d, variant) for d in s[1]) else CALL
        if t in ('seq', 'ite', 'tryFinally', 'tryExcept'):
            return (t, self.resolve_ir(f, s[1], variant), self.resolve_ir(f, s[2], variant))
        if t == 'loop': return ('loop', self.resolve_ir(f, s[1], variant))
        if t == 'withMgr': return ('withMgr', s[1], s[2], self.resolve_ir(f, s[3], variant))
        return s

    def fixed_point(self):
        self.leaky, self.notcb, self.cb_used = set(), set(), set()
        rounds = 0
        while True:
            rounds += 1
            new_l, new_c = set(), set()
            for f in self.funcs:
                if f.key not in self.leaky and not bracketed(self.resolve_ir(f, f.ir)):
                    new_l.add(f.key)
                if f.key not in self.notcb and not bracketed(self.resolve_ir(f, f.ir, True)):
                    new_c.add(f.key)
            if not new_l and not new_c: break
            self.leaky |= new_l; self.notcb |= new_c
        self.rounds = rounds
        self.cb_used = set()
        for f in self.funcs:
            f.final = simplify(self.resolve_ir(f, f.ir))
            f.bracketed = bracketed(f.final)
            assert f.bracketed == (f.key not in self.leaky), f.key
            f.own_write = has_node(f.ir, ('setPrec', 'setDps', 'withMgr'))
        todo, done = sorted(self.cb_used), set()
        while todo:                       # variants may rely on further variants
            k = todo.pop()
            if k in done: continue
            done.add(k)
            h = self.by_key[k]
            h.final_cb = simplify(self.resolve_ir(h, h.ir, True))
            assert bracketed(h.final_cb), k
            todo += sorted(self.cb_used - done)
        return self.leaky

    # call graph for "which public entry points reach F"
    def edges(self, f):
        out = set()
        def desc(g, d):
            _, how, name, refs = d
            for h in self.targets(g, how, name): out.add(h.key)
            if how == 'name':
                for g2, lam in self.resolve_name(g, name)[1]:
                    for c in g2.tr.lambda_calls(lam): desc(g2, c)
            for r in refs:
                if r[0] == 'lam':
                    for c in r[1]: desc(g, c)
                else:
                    desc(g, ('call', r[0], r[1], ()))
        def walk(s):
            if s[0] == 'callNamed':
                for d in s[1]: desc(f, d)
            for x in children(s): walk(x)
        walk(f.ir)
        return out

    def is_public(self, f):
        if f.parent is not None or f.name.startswith('_'): return False
        if any(d.startswith('defun') for d in f.decorators): return True
        if f.cls is not None and re.search(r'(Context|Methods|Functions|Eigen)$|^(MPContext|matrix)$', f.cls):
            return True
        return False

def lean_name(key):
    mod, q = key.split(':')
    s = (mod + '_' + q).replace('.', '_').replace('#', '_n')
    s = re.sub(r'[^A-Za-z0-9_]', '_', s)
    return 'skel_' + s

def reasons(s, S=None, out=None, path=''):
    """human-readable reasons why okG false fails (first offending nodes)"""
    out = [] if out is None else out
    def go(S, s):
        t = s[0]
        if t in ('setPrec', 'setDps'): out.append('bare %s (%s)' % (t, 'from saved' if s[1] is not None else 'other'))
        elif t == 'callLeaky': out.append('call of leaky callee outside a bracket')
        elif t == 'seq':
            go(S, s[1]); go(after(S, s[1]), s[2])
        elif t == 'ite':
            go(S, s[1]); go(S, s[2])
        elif t == 'loop': go(diff(S, kills(s[1])), s[1])
        elif t == 'tryFinally':
            if not okG(False, S, s):
                S1 = diff(S, kills(s[1]))
                if has_yield(s[1]) and okG(True, S1, s[2]): out.append('yield inside try/finally bracket')
                elif has_node(s[2], ('setPrec', 'setDps')):
                    out.append('finally does not restore prec from a live save of prec')
                    go(S, s[1])
                else:
                    go(S, s[1]); go(S1, s[2])
        elif t == 'tryExcept':
            go(S, s[1]); go(diff(S, kills(s[1])), s[2])
        elif t == 'withMgr':
            if s[1] in kills(s[3]): out.append('manager object re-entered')
            if has_yield(s[3]): out.append('yield inside with-manager')
    go([], s)
    return sorted(set(out))

def main():
    ap = argparse.ArgumentParser()
    here = os.path.dirname(os.path.abspath(__file__))
    ap.add_argument('--repo', default='/repo/mpmath')
    ap.add_argument('--out', default=os.path.join(here, '..', 'lean', 'Gen'))
    ap.add_argument('--quiet', action='store_true')
    ap.add_argument('--baseline', default=None, help='also write the baseline file (harness/prec_baseline.json)')
    a = ap.parse_args()
    r = extract(a.repo, a.out, quiet=a.quiet)
    if a.baseline:
        json.dump(baseline_of(r), open(a.baseline, 'w'), indent=1, sort_keys=True)


def baseline_of(r):
    """what harness/props/C11.py compares a fresh extraction with"""
    s, fn = r['summary'], r['functions']
    return dict(
        not_bracketed=sorted(s['not_bracketed']),
        bracketed_with_effect=sorted(k for k, v in fn.items() if v['bracketed']),
        writers=sorted(k for k, v in fn.items() if v['kind'] != 'propagated'),
        leaky_public_entries=sorted(s['leaky_public_entries']),
        callback_safe_used=sorted(s['callback_safe_used']),
        manager_model_ok=s['manager_model_ok'],
        functions_total=s['functions_total'])


def extract(repo, out, quiet=True):
    """parse `repo` (the mpmath package directory), write <out>/PrecSkel.lean and <out>/prec_skel.json,
    return {'summary': …, 'functions': …} (the content of the JSON sidecar)"""
    class A: pass
    a = A(); a.repo, a.out, a.quiet = repo, out, quiet
    P = Program(a.repo)
    leaky = P.fixed_point()
    os.makedirs(a.out, exist_ok=True)

    # reverse reachability from public entry points
    graph = {f.key: P.edges(f) for f in P.funcs}
    publics = sorted(f.key for f in P.funcs if P.is_public(f))
    reach = {}
    for e in publics:
        seen, st = set(), [e]
        while st:
            k = st.pop()
            if k in seen: continue
            seen.add(k); st.extend(graph.get(k, ()))
        reach[e] = seen

    emitted = sorted((f for f in P.funcs if has_node(f.final, EFFECT)), key=lambda f: f.key)
    names = {}
    for f in emitted:
        n = lean_name(f.key)
        while n in names.values(): n += '_'
        names[f.key] = n

    lines = ['/-', '  GENERATED by tools/skel_extract.py from %s — do not edit.' % a.repo,
             '  One skeleton per function with a precision effect; `bracketed` re-decided by Lean.',
             '-/', 'import MpModel.Skel', '', 'namespace Mp.Gen', 'open Mp.Skel', '']
    side = {}
    for f in emitted:
        n = names[f.key]
        kind = ('setter' if f.name in SETTER_NAMES and f.own_write else
                'writer' if f.own_write else 'propagated')
        lines.append('/-- %s:%d  `%s`  (%s%s) -/' % (f.file, f.node.lineno, f.qual, kind,
                                                    ', defun_wrapped' if f.wrapped else ''))
        lines.append('def %s : Stmt :=\n  %s' % (n, to_lean(f.final, 2)))
        lines.append('example : bracketed %s = %s := by decide' % (n, 'true' if f.bracketed else 'false'))
        lines.append('')
        ent = sorted(e for e in publics if f.key in reach[e])
        side[f.key] = dict(file=f.file, line=f.node.lineno,
                           codeline=min([f.node.lineno] + [d.lineno for d in f.node.decorator_list]), lean=n, kind=kind, wrapped=f.wrapped,
                           bracketed=f.bracketed, summary='neutral' if f.bracketed else 'leaky',
                           public=P.is_public(f),
                           public_summary=('neutral' if (f.bracketed or (f.wrapped and P.wrapper_ok())) else 'leaky') if P.is_public(f) else None,
                           reasons=([f.err] if f.err else []) + ([] if f.bracketed else reasons(f.final)),
                           reached_by=ent,
                           leaky_entries=sorted(e for e in ent if e in leaky and not (P.by_key[e].wrapped and P.wrapper_ok())))
    lines.append('/-! callback-safety variants: every use of a parameter as a function is `callLeaky`;')
    lines.append('    bracketed ⇒ handing a leaky function to this one cannot leak precision -/')
    cbs = []
    for k in sorted(P.cb_used):
        h = P.by_key[k]
        n = lean_name(k) + '__cb'
        cbs.append(k)
        lines.append('/-- %s:%d  `%s`  (callback-safety variant) -/' % (h.file, h.node.lineno, h.qual))
        lines.append('def %s : Stmt :=\n  %s' % (n, to_lean(h.final_cb, 2)))
        lines.append('example : bracketed %s = true := by decide' % n)
        lines.append('')
    nb = [f for f in emitted if not f.bracketed]
    lines.append('/-- functions whose skeleton is NOT bracketed: to be confirmed dynamically -/')
    lines.append('def notBracketed : List String := [')
    lines.append(',\n'.join('  "%s"' % f.key for f in nb))
    lines.append(']')
    lines.append('')
    lines.append('end Mp.Gen')
    open(os.path.join(a.out, 'PrecSkel.lean'), 'w').write('\n'.join(lines) + '\n')

    leaky_public = sorted(k for k in publics if k in leaky and not (P.by_key[k].wrapped and P.wrapper_ok()))
    summary = dict(
        repo=a.repo, functions_total=len(P.funcs), fixed_point_rounds=P.rounds,
        writers=sum(1 for f in P.funcs if f.own_write),
        writers_bracketed=sum(1 for f in P.funcs if f.own_write and f.bracketed),
        writers_wrapped_entry=sum(1 for f in P.funcs if f.own_write and not f.bracketed and f.wrapped),
        emitted=len(emitted), emitted_bracketed=sum(1 for f in emitted if f.bracketed),
        not_bracketed=[f.key for f in nb],
        not_bracketed_writers=[f.key for f in nb if f.own_write],
        not_bracketed_propagated=[f.key for f in nb if not f.own_write],
        leaky_public_entries=leaky_public,
        callback_safe_used=cbs, manager_model_ok=P.manager_model_ok,
        untranslatable=sorted(f.key + ': ' + f.err for f in P.funcs if f.err),
    )
    json.dump(dict(summary=summary, functions=side), open(os.path.join(a.out, 'prec_skel.json'), 'w'),
              indent=1, sort_keys=True)
    if not a.quiet:
        print('functions parsed          :', summary['functions_total'])
        print('functions writing prec/dps:', summary['writers'])
        print('  of which bracketed      :', summary['writers_bracketed'])
        print('  not bracketed           :', summary['writers'] - summary['writers_bracketed'],
              '(of which defun_wrapped entry:', summary['writers_wrapped_entry'], ')')
        print('emitted skeletons         :', summary['emitted'], ' bracketed:', summary['emitted_bracketed'])
        print('fixed point rounds        :', summary['fixed_point_rounds'])
        print('untranslatable            :', summary['untranslatable'])
        print('PrecisionManager has the modelled shape:', summary['manager_model_ok'])
        print('callback-safe callees used:', summary['callback_safe_used'])
        print('NOT bracketed, own writes :')
        for k in summary['not_bracketed_writers']: print('   ', k, side[k]['reasons'])
        print('NOT bracketed, propagated :')
        for k in summary['not_bracketed_propagated']: print('   ', k)
        print('leaky PUBLIC entry points :')
        for k in leaky_public: print('   ', k)
    return dict(summary=summary, functions=side)

if __name__ == '__main__':
    main()
