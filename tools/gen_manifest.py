#!/usr/bin/env python3
"""Regenerate /verif/MANIFEST.json from harness/registry.py (claimed checks) and the fixed property list."""
import json, os, sys
VERIF = os.path.dirname(os.path.dirname(os.path.abspath(__file__)))
sys.path.insert(0, os.path.join(VERIF, "harness"))
import registry

props = [json.loads(l)["id"] for l in open(os.path.join(VERIF, "properties.jsonl"))]
checks = []
for pid in props:
    r = registry.CHECKS.get(pid)
    if not r:
        continue
    checks.append({
        "property_id": pid,
        "quick_cmd": "./check %s --tier quick" % pid,
        "thorough_cmd": "./check %s --tier thorough" % pid,
        "evidence_file": "evidence/%s.json" % pid,
        "replay_cmd_template": "./check %s --replay {path}" % pid,
        "engine": "lean-model",
        "level_claimed": {"category": r["category"], "text": r["text"], "design_ref": r.get("design_ref", "DESIGN.md section 4, " + pid)},
        "level_note": r["note"],
        "technique": r["technique"],
    })
na = []
for pid in props:
    if pid in registry.CHECKS:
        continue
    na.append({"property_id": pid, "reason": registry.NOT_APPLICABLE.get(pid, registry.NOT_YET)})
m = {
    "version": 1,
    "setup_cmd": "cd lean && lake build MpModel mpdrv MpProofs Props",
    "hooks": {"guard": "MPMATH_VERIF", "enable": "no source hooks are needed: all instrumentation is done by monkey-patching from the harness process (mpmath's own MPMATH_STRICT switch is the only environment-guarded monitor used)",
              "baseline_off_cmd": "cd /repo && /venv/bin/python -m pytest -q -p no:cacheprovider --timeout=900",
              "source_commits": [], "add_only": True},
    "engines": [{"name": "lean-model", "path": "lean/", "serves_properties": sorted(registry.CHECKS),
                 "kind_free_text": "Lean 4 executable model of the code + theorems (Mathlib in proof files only); compiled line-protocol driver mpdrv; Python correspondence harness in harness/ running the real code from /repo's working tree"}],
    "checks": checks,
    "notes": registry.NOTES,
    "not_applicable": na,
}
json.dump(m, open(os.path.join(VERIF, "MANIFEST.json"), "w"), indent=1)
print("checks:", len(checks), "not_applicable:", len(na))
