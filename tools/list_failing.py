#!/usr/bin/env python3
"""tools/list_failing.py <PID> [seed...] — run the dynamic part of a check and print failing inputs grouped by site
(used to maintain known_findings.json by hand; never used by a registered check)."""
import sys, os, json, importlib
VERIF = os.path.dirname(os.path.dirname(os.path.abspath(__file__)))
sys.path.insert(0, os.path.join(VERIF, "harness"))
os.environ.setdefault("MPMATH_NOGMPY", "1")
from common import *  # noqa
import runner, findings as F
pid = sys.argv[1]
seeds = [int(x) for x in sys.argv[2:]] or [0]
cfg = importlib.import_module("props." + pid)
import_repo()
known = [k for k in load_known_findings() if k.get("property") == pid and k.get("status") == "finding"]
for s in seeds:
    ctx = runner.Ctx(pid, os.environ.get("VERIF_TIER", "quick"), s)
    if hasattr(cfg, "pregen"):
        cfg.pregen(ctx)
    res = cfg.run(ctx)
    sites = {}
    for f in res.get("failing_inputs", []):
        k = F.match(known, f)
        e = sites.setdefault((f.get("site"), k["id"] if k else None), [0, f.get("what"), f.get("input")])
        e[0] += 1
    print("seed", s, "disagreements", len(res.get("disagreements", [])), "broken", [b[0] for b in res.get("broken", [])])
    for (site, kid), v in sorted(sites.items(), key=lambda x: str(x[0])):
        print("  %-8s %-55s x%-4d %s" % (kid or "UNLISTED", site, v[0], str(v[1])[:110]))
        if not kid:
            print("           input:", json.dumps(v[2], default=str)[:300])
