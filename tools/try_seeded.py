#!/usr/bin/env python3
"""tools/try_seeded.py <patch.diff> <PID> [PID...] [--inplace] [--seed N] [--tier quick]
Run registered checks against a seeded breaking change.
 default : the patch is applied to a throw-away worktree of /repo under /tmp and the checks run with MPMATH_REPO pointing there
           (safe while other processes use /repo);
 --inplace: git -C /repo apply <patch>; run; git -C /repo checkout -- .   (the procedure of the task brief).
Prints one line per check: PID exit-code first VIOLATION/KNOWN line."""
import sys, os, subprocess, tempfile, shutil, json, time
VERIF = os.path.dirname(os.path.dirname(os.path.abspath(__file__)))
args = [a for a in sys.argv[1:] if not a.startswith("--")]
inplace = "--inplace" in sys.argv
seed = "0"
tier = "quick"
for i, a in enumerate(sys.argv):
    if a == "--seed": seed = sys.argv[i + 1]
    if a == "--tier": tier = sys.argv[i + 1]
args = [a for a in args if a not in (seed, tier) or a.startswith("C") or a.endswith(".diff")]
patch = os.path.abspath(args[0])
pids = [a for a in args[1:] if a.startswith("C")]
env = dict(os.environ, VERIF_SEED=seed, VERIF_TIER=tier, MPMATH_NOGMPY="1")
tree = None
try:
    if inplace:
        assert subprocess.run(["git", "-C", "/repo", "status", "--porcelain"], capture_output=True, text=True).stdout.strip() == "", "/repo not clean"
        subprocess.check_call(["git", "-C", "/repo", "apply", patch])
    else:
        tree = tempfile.mkdtemp(prefix="seedrun_", dir="/tmp")
        os.rmdir(tree)
        subprocess.check_call(["git", "-C", "/repo", "worktree", "add", "-q", "--detach", tree, "HEAD"])
        subprocess.check_call(["git", "-C", tree, "apply", patch])
        env["MPMATH_REPO"] = tree
    results = {}
    for pid in pids:
        t = time.time()
        p = subprocess.run([os.path.join(VERIF, "check"), pid, "--tier", tier], cwd=VERIF, env=env, capture_output=True, text=True)
        lines = [l for l in p.stdout.split("\n") if l.startswith(("VIOLATION", "INFRA", "OK ", "FAIL "))]
        what = [l for l in p.stdout.split("\n") if l.startswith("  what:") or l.startswith("  no longer")]
        results[pid] = {"exit": p.returncode, "lines": lines[:3], "what": what[:2], "wall": round(time.time() - t, 1)}
        print(pid, "exit", p.returncode, "|", " || ".join(lines[:2]), "|", " ".join(what[:1])[:200], flush=True)
    print(json.dumps(results))
finally:
    if inplace:
        subprocess.call(["git", "-C", "/repo", "checkout", "--", "."])
    elif tree:
        subprocess.call(["git", "-C", "/repo", "worktree", "remove", "--force", tree])
